package main

import (
	"encoding/hex"
	"encoding/json"
	"fmt"
	"os"
	"path/filepath"
	"reflect"
	"strings"

	"github.com/elementsproject/peerswap/swap"
	"go.etcd.io/bbolt"
)

// C14: records built on the real structs by reflection (same walk as the schema extractor).

var recStrings = []string{"", "a", "State_SwapInSender_AwaitAgreement", "02" + strings.Repeat("ab", 32), "100x1x0", "lnbc1…ü", "with \"quotes\" and \\ backslash",
	"<script>&amp;</script>", "line\nbreak\ttab\rcr", "ctl\x01\x1f\x7f\b\f", "sep  end", "日本語", strings.Repeat("x", 300), "{\"json\":true}", "null", " lead/trail "}

func fillValue(r *rng, v reflect.Value, toks *[]string, hist map[string]int) {
	t := v.Type()
	switch {
	case t == swapIdType:
		if r.intn(5) == 0 {
			*toks = append(*toks, "i:nil")
			return
		}
		id := &swap.SwapId{}
		for i := range id {
			id[i] = byte(r.intn(256))
		}
		if r.intn(6) == 0 {
			*id = swap.SwapId{}
		}
		v.Set(reflect.ValueOf(id))
		*toks = append(*toks, "i:"+hex.EncodeToString(id[:]))
	case t.Kind() == reflect.String:
		s := r.pickStr(recStrings)
		v.SetString(s)
		*toks = append(*toks, "s:"+hexs(s))
	case t.Kind() == reflect.Bool:
		b := r.bool()
		v.SetBool(b)
		*toks = append(*toks, "b:"+b01(b))
	case t.Kind() >= reflect.Uint && t.Kind() <= reflect.Uint64:
		max := uint64(1)<<uint(t.Bits()) - 1
		if t.Bits() == 64 {
			max = ^uint64(0)
		}
		x := r.pickU64([]uint64{0, 0, 1, 7, 1000000, max / 2, max/2 + 1, max - 1, max, r.u64() % (max/2 + 1)})
		if x > max {
			x = max
		}
		v.SetUint(x)
		*toks = append(*toks, fmt.Sprintf("n:%d", x))
	case t.Kind() >= reflect.Int && t.Kind() <= reflect.Int64:
		lim := int64(1)<<uint(t.Bits()-1) - 1
		x := r.pickI64([]int64{0, 0, 1, -1, 42, -1000001, lim, -lim - 1, lim - 1, int64(r.u64()>>1) % (lim/2 + 1), -(int64(r.u64()>>1) % (lim/2 + 1))})
		v.SetInt(x)
		*toks = append(*toks, fmt.Sprintf("n:%d", x))
	case t.Kind() == reflect.Slice && t.Elem().Kind() == reflect.Uint8:
		switch r.intn(5) {
		case 0:
			*toks = append(*toks, "y:nil")
			hist["bytes:nil"]++
		case 1:
			v.SetBytes([]byte{})
			*toks = append(*toks, "y:-")
			hist["bytes:empty"]++
		default:
			n := r.intn(40)
			b := make([]byte, n+1)
			for i := range b {
				b[i] = byte(r.intn(256))
			}
			v.SetBytes(b)
			*toks = append(*toks, "y:"+hex.EncodeToString(b))
			hist[fmt.Sprintf("bytes:len%%3=%d", len(b)%3)]++
		}
	case t.Kind() == reflect.Interface:
		*toks = append(*toks, "f")
	case t.Kind() == reflect.Ptr && t.Elem().Kind() == reflect.Struct:
		if r.intn(4) == 0 {
			*toks = append(*toks, "p0")
			return
		}
		*toks = append(*toks, "p1")
		nv := reflect.New(t.Elem())
		vis, _ := visibleFields(t.Elem())
		for _, f := range vis {
			fillValue(r, nv.Elem().Field(f.index), toks, hist)
		}
		// exported fields that encoding/json skips (tag "-") still get a value, so that a field that stops
		// being persisted shows up as a difference after the reload (they carry no token: not in the record)
		for i := 0; i < t.Elem().NumField(); i++ {
			f := t.Elem().Field(i)
			if f.IsExported() && f.Tag.Get("json") == "-" && !notPersistedByDesign[t.Elem().Name()+"."+f.Name] {
				switch f.Type.Kind() {
				case reflect.String:
					nv.Elem().Field(i).SetString("not-persisted?")
				case reflect.Int, reflect.Int8, reflect.Int16, reflect.Int32, reflect.Int64:
					nv.Elem().Field(i).SetInt(1)
				case reflect.Uint, reflect.Uint8, reflect.Uint16, reflect.Uint32, reflect.Uint64:
					nv.Elem().Field(i).SetUint(1)
				case reflect.Bool:
					nv.Elem().Field(i).SetBool(true)
				}
			}
		}
		v.Set(nv)
	default:
		panic("unsupported " + t.String())
	}
}

func genRecord(r *rng, hist map[string]int) (*swap.SwapStateMachine, []string) {
	var toks []string
	holder := reflect.New(reflect.TypeOf(&swap.SwapStateMachine{})).Elem()
	for holder.IsNil() { // the record itself is never a nil pointer
		toks = nil
		fillValue(r, holder, &toks, hist)
	}
	return holder.Interface().(*swap.SwapStateMachine), toks
}

// States is rebuilt from type and role on recovery; LastErr is persisted as its text (LastErrString)
var notPersistedByDesign = map[string]bool{"SwapStateMachine.States": true, "SwapData.LastErr": true}

// sameRecord compares two records on every exported field
func sameRecord(a, b reflect.Value) string {
	t := a.Type()
	switch {
	case t == swapIdType:
		if a.IsNil() != b.IsNil() || (!a.IsNil() && a.Elem().Interface() != b.Elem().Interface()) {
			return "swap id differs"
		}
	case t.Kind() == reflect.Slice:
		if a.IsNil() != b.IsNil() || string(a.Bytes()) != string(b.Bytes()) {
			return fmt.Sprintf("bytes differ (nil %v/%v, len %d/%d)", a.IsNil(), b.IsNil(), a.Len(), b.Len())
		}
	case t.Kind() == reflect.Interface:
		if a.IsNil() != b.IsNil() {
			return "interface differs"
		}
	case t.Kind() == reflect.Ptr:
		if a.IsNil() != b.IsNil() {
			return "pointer nil-ness differs"
		}
		if a.IsNil() {
			return ""
		}
		// every exported field must come back, except the two that are rebuilt / replaced by design
		for i := 0; i < t.Elem().NumField(); i++ {
			f := t.Elem().Field(i)
			if !f.IsExported() || notPersistedByDesign[t.Elem().Name()+"."+f.Name] {
				continue
			}
			if d := sameRecord(a.Elem().Field(i), b.Elem().Field(i)); d != "" {
				return t.Elem().Name() + "." + f.Name + ": " + d
			}
		}
	default:
		if a.Interface() != b.Interface() {
			return fmt.Sprintf("%v != %v", a.Interface(), b.Interface())
		}
	}
	return ""
}

func init() {
	slices["record"] = func(r *rng, n int, emit func(op, res string)) {
		hist := map[string]int{}
		for i := 0; i < n; i++ {
			rec, toks := genRecord(r, hist)
			b, err := json.Marshal(rec)
			if err != nil {
				emit("rec.enc "+strings.Join(toks, " "), "marshal-error "+err.Error())
				continue
			}
			back := &swap.SwapStateMachine{}
			ok := "1"
			if err := json.Unmarshal(b, back); err != nil || sameRecord(reflect.ValueOf(rec), reflect.ValueOf(back)) != "" {
				ok = "0"
			}
			emit("rec.enc "+strings.Join(toks, " "), ok+" "+string(b))
		}
		sliceStats["record"] = hist
	}

	monitors["C14"] = func(r *rng, n int, res *MonitorResult) {
		res.Rule = "(1) random records (every field of every nested message set to boundary and awkward values: extreme integers, negative premiums, empty/long/escaped/non-ASCII strings, nil/empty/odd-length byte slices, nil and zero ids, missing messages) written to the REAL bbolt store with Create/Update and read back with GetById / ListAll: every persisted field equal; (2) the records of real swaps in every rest state of every role, written by the real machines, are reloaded after a restart and compared field by field with the record of the running swap; distinct = distinct records"
		dir, _ := os.MkdirTemp("", "psverif-rec")
		defer os.RemoveAll(dir)
		db, err := bbolt.Open(filepath.Join(dir, "swaps.db"), 0o600, nil)
		if err != nil {
			panic(err)
		}
		defer db.Close()
		store, err := swap.NewBboltStore(db)
		if err != nil {
			panic(err)
		}
		seen := map[string]bool{}
		for i := 0; i < n; i++ {
			rec, toks := genRecord(r, res.Histogram)
			if rec.SwapId == nil {
				continue // the store keys records by id
			}
			res.Evaluations++
			key := strings.Join(toks, " ")
			if !seen[key] {
				seen[key] = true
				res.Distinct++
			}
			if err := store.UpdateData(rec); err != nil {
				res.addFinding("C14/store-write-fails", err.Error(), map[string]string{"record": key})
				continue
			}
			back, err := store.GetById(rec.SwapId.String())
			if err != nil {
				res.addFinding("C14/record-unreadable", "a record the node wrote cannot be read back: "+err.Error(), map[string]string{"record": key})
				continue
			}
			if d := sameRecord(reflect.ValueOf(rec), reflect.ValueOf(back)); d != "" {
				res.addFinding("C14/record-reloads-differently/"+strings.SplitN(d, ":", 2)[0], "a persisted field reloads with a different value: "+d, map[string]string{"record": key})
			}
		}
		// (2) real swaps
		for _, role := range roles {
			for _, chain := range []string{"btc", "lbtc"} {
				pre := restPrefixes(role, chain)
				for name, steps := range pre {
					w, c, _ := runScenario(defaultCfg(), steps)
					live, err := w.svc.GetActiveSwap(c.id)
					var liveRec *swap.SwapStateMachine
					if err == nil {
						liveRec = live
					} else {
						liveRec, _ = w.store.inner.GetData(c.id)
					}
					if liveRec != nil {
						stored, err := w.store.inner.GetData(c.id)
						res.Evaluations++
						res.Histogram["real swap record"]++
						if err != nil {
							res.addFinding("C14/record-unreadable", "the record of a real swap cannot be read back: "+err.Error(), map[string]string{"role": role, "chain": chain, "state": name})
						} else if d := sameRecord(reflect.ValueOf(liveRec), reflect.ValueOf(stored)); d != "" {
							res.addFinding("C14/live-and-stored-differ/"+strings.SplitN(d, ":", 2)[0], "the stored record of a swap at rest differs from the swap in memory: "+d, map[string]string{"role": role, "chain": chain, "state": name})
						}
					}
					w.close()
				}
			}
		}
		// (3) every rest state × every outside stimulus (malformed and misplaced messages included), and random
		// disturbed runs: whatever happened, the stored record must still load
		scs := sweepScenarios(roles)
		for i := 0; i < n/10; i++ {
			role := roles[r.intn(len(roles))]
			scs = append(scs, scn{role: role, steps: genScenario(r, role, false)})
		}
		runMany(defaultCfg(), scs, func(x scnResult) {
			if x.ctx == nil || x.ctx.id == "" {
				return
			}
			res.Evaluations++
			res.Histogram["disturbed swap record"]++
			_, err := x.w.store.inner.GetData(x.ctx.id)
			if err != nil && !strings.Contains(err.Error(), "does not exist") && !strings.Contains(err.Error(), "not found") && !strings.Contains(err.Error(), "not in store") {
				res.addFinding("C14/record-unreadable", "the record of a real swap cannot be read back: "+err.Error(), map[string]string{"role": x.sc.role, "scenario": scenarioKey(x.sc.steps)})
			}
			if _, err := x.w.store.inner.ListAll(); err != nil {
				res.addFinding("C14/store-unreadable", "the swap store cannot be listed any more (a restart would fail): "+err.Error(), map[string]string{"role": x.sc.role, "scenario": scenarioKey(x.sc.steps)})
			}
		})
	}
}
