package main

import (
	"fmt"
	"os"
	"strings"
	"time"

	"github.com/elementsproject/peerswap/swap"
)

func init() {
	// fast, deterministic timing for every harness run
	swap.VerifSetTiming(120*time.Millisecond, time.Millisecond, time.Hour, true)
}

// runScenario executes the steps in a fresh world and returns it (caller closes).
func runScenario(cfg WorldCfg, steps []string) (*World, *Ctx, []string) {
	w := newWorld(cfg)
	c := newCtx(w)
	res := c.Run(steps)
	return w, c, res
}

type scnResult struct {
	sc  scn
	w   *World
	ctx *Ctx
	res []string
}

// runMany executes scenarios in parallel (each in its own world) and hands the finished worlds to
// `each` in input order; worlds are closed afterwards.
func runMany(cfg WorldCfg, scs []scn, each func(r scnResult)) {
	const workers = 8
	type job struct {
		i  int
		sc scn
	}
	results := make([]chan scnResult, len(scs))
	for i := range results {
		results[i] = make(chan scnResult, 1)
	}
	jobs := make(chan job)
	for k := 0; k < workers; k++ {
		go func() {
			for j := range jobs {
				cf := cfg
				if j.sc.cfg != nil {
					cf = *j.sc.cfg
				}
				w, c, res := runScenario(cf, j.sc.steps)
				results[j.i] <- scnResult{j.sc, w, c, res}
			}
		}()
	}
	go func() {
		for i, sc := range scs {
			jobs <- job{i, sc}
		}
		close(jobs)
	}()
	for i := range scs {
		r := <-results[i]
		each(r)
		r.w.close()
	}
}

func cmdScn(args []string) {
	steps := strings.Split(strings.Join(args, " "), ";")
	for i := range steps {
		steps[i] = strings.TrimSpace(steps[i])
	}
	cfg := defaultCfg()
	if os.Getenv("VERIF_REAL_WALLETS") != "" {
		cfg.RealWallets = true // the real wallet adapters and validators under the machines
	}
	w, c, res := runScenario(cfg, steps)
	defer w.close()
	for _, o := range w.obs {
		fmt.Println(o.String())
	}
	fmt.Println("results:", res, "final:", c.state(), "panics:", c.panics)
	_ = os.Stdout
}
