package main

import (
	"fmt"
	"os"
	"strings"
	"time"

	"github.com/elementsproject/peerswap/swap"
)

func init() {
	// fast, deterministic timing for every harness run
	swap.VerifSetTiming(200*time.Millisecond, time.Millisecond, time.Hour, true)
}

// runScenario executes the steps in a fresh world and returns it (caller closes).
func runScenario(cfg WorldCfg, steps []string) (*World, *Ctx, []string) {
	w := newWorld(cfg)
	c := newCtx(w)
	res := c.Run(steps)
	return w, c, res
}

func cmdScn(args []string) {
	steps := strings.Split(strings.Join(args, " "), ";")
	for i := range steps {
		steps[i] = strings.TrimSpace(steps[i])
	}
	w, c, res := runScenario(defaultCfg(), steps)
	defer w.close()
	for _, o := range w.obs {
		fmt.Println(o.String())
	}
	fmt.Println("results:", res, "final:", c.state(), "panics:", c.panics)
	_ = os.Stdout
}
