// psharness: verification harness for peerswap. It runs the REAL code of /repo
// (built with -tags verif) and speaks a line protocol shared with the Lean
// driver (lean/Driver.lean).
//
//	psharness facts <outdir>                     regenerate lean/PsVerif/Gen/*.lean from the running code
//	psharness ops <slice> <seed> <n> <opsfile> <outfile> [statsfile]
//	                                             generate n operations, run them on the real code
//	psharness monitor <property> <seed> <n>      judge the real code against the property (JSON on stdout)
//	psharness replay <property> <file>           re-run a stored witness on the real code
package main

import (
	"bufio"
	"encoding/json"
	"fmt"
	"os"
	"sort"
	"strconv"
	"strings"
)

type sliceFn func(r *rng, n int, emit func(op, res string))

var slices = map[string]sliceFn{}

// Finding is one violation of a property observed on the real code.
type Finding struct {
	Signature string      `json:"signature"` // stable, specific: used to match known_findings.json
	What      string      `json:"what"`
	Replay    interface{} `json:"replay"`
}

type MonitorResult struct {
	Property    string         `json:"property"`
	Evaluations int            `json:"evaluations"`
	Distinct    int            `json:"distinct_nontrivial"`
	Rule        string         `json:"rule"`
	Histogram   map[string]int `json:"histogram"`
	Samples     []interface{}  `json:"samples"`
	Findings    []Finding      `json:"findings"`
}

type monitorFn func(r *rng, n int, res *MonitorResult)

var monitors = map[string]monitorFn{}

// input-class counters a slice may publish (generator distribution)
var sliceStats = map[string]map[string]int{}

func main() {
	if len(os.Args) < 2 {
		fmt.Fprintln(os.Stderr, "usage: psharness facts|ops|monitor|replay ...")
		os.Exit(2)
	}
	switch os.Args[1] {
	case "facts":
		if err := writeFacts(os.Args[2]); err != nil {
			fmt.Fprintln(os.Stderr, "facts:", err)
			os.Exit(3)
		}
	case "ops":
		name := os.Args[2]
		seed, _ := strconv.ParseUint(os.Args[3], 10, 64)
		n, _ := strconv.Atoi(os.Args[4])
		fn, ok := slices[name]
		if !ok {
			fmt.Fprintln(os.Stderr, "unknown slice", name)
			os.Exit(2)
		}
		of, _ := os.Create(os.Args[5])
		rf, _ := os.Create(os.Args[6])
		ow, rw := bufio.NewWriter(of), bufio.NewWriter(rf)
		hist := map[string]int{}
		distinct := map[string]bool{}
		cnt := 0
		fn(newRng(seed), n, func(op, res string) {
			fmt.Fprintln(ow, op)
			fmt.Fprintln(rw, res)
			cnt++
			hist[opKind(op)+" -> "+resKind(res)]++
			distinct[op] = true
		})
		ow.Flush()
		rw.Flush()
		of.Close()
		rf.Close()
		if len(os.Args) > 7 {
			st := map[string]interface{}{"ops": cnt, "distinct_ops": len(distinct), "histogram": hist}
			if ic, ok := sliceStats[name]; ok {
				st["input_classes"] = ic
			}
			b, _ := json.MarshalIndent(st, "", " ")
			os.WriteFile(os.Args[7], b, 0o644)
		}
	case "monitor":
		name := os.Args[2]
		seed, _ := strconv.ParseUint(os.Args[3], 10, 64)
		n, _ := strconv.Atoi(os.Args[4])
		fn, ok := monitors[name]
		if !ok {
			fmt.Fprintln(os.Stderr, "unknown monitor", name)
			os.Exit(2)
		}
		res := &MonitorResult{Property: name, Histogram: map[string]int{}, Findings: []Finding{}, Samples: []interface{}{}}
		fn(newRng(seed), n, res)
		sort.Slice(res.Findings, func(i, j int) bool { return res.Findings[i].Signature < res.Findings[j].Signature })
		b, _ := json.MarshalIndent(res, "", " ")
		fmt.Println(string(b))
	case "race":
		seed, _ := strconv.ParseUint(os.Args[2], 10, 64)
		n, _ := strconv.Atoi(os.Args[3])
		cmdRace(seed, n)
	case "scn":
		cmdScn(os.Args[2:])
	case "probe":
		cmdProbe(os.Args[2])
	case "replay":
		// replay <property> <file>: re-run the stored witnesses on the real code and print what happens
		raw, err := os.ReadFile(os.Args[3])
		if err != nil {
			fmt.Fprintln(os.Stderr, err)
			os.Exit(2)
		}
		var rf struct {
			Findings []struct {
				Signature string          `json:"signature"`
				What      string          `json:"what"`
				Replay    json.RawMessage `json:"replay"`
			} `json:"findings"`
		}
		json.Unmarshal(raw, &rf)
		for _, f := range rf.Findings {
			fmt.Println("== finding:", f.Signature, "—", f.What)
			var r struct {
				Scenario string `json:"scenario"`
			}
			if json.Unmarshal(f.Replay, &r) == nil && r.Scenario != "" {
				cmdScn([]string{r.Scenario})
			} else {
				fmt.Println("   input:", string(f.Replay))
			}
		}
	default:
		fmt.Fprintln(os.Stderr, "unknown command", os.Args[1])
		os.Exit(2)
	}
}

func opKind(op string) string {
	if strings.HasPrefix(op, "pol.op ") {
		return strings.Join(strings.Fields(op)[:2], " ")
	}
	for i := 0; i < len(op); i++ {
		if op[i] == ' ' {
			return op[:i]
		}
	}
	return op
}

func resKind(res string) string {
	if i := strings.Index(res, " fresh="); i >= 0 {
		return strings.Fields(res)[0] + res[i:]
	}
	if strings.HasPrefix(res, "ok allow=") {
		return "ok"
	}
	if len(res) > 24 && !strings.Contains(res[:24], " ") {
		return res[:8] + "…"
	}
	n := 0
	for i := 0; i < len(res); i++ {
		if res[i] == ' ' {
			n++
			if n == 2 {
				return res[:i]
			}
		}
	}
	return res
}

// addFinding records a finding once per signature.
func (m *MonitorResult) addFinding(sig, what string, replay interface{}) {
	for _, f := range m.Findings {
		if f.Signature == sig {
			return
		}
	}
	m.Findings = append(m.Findings, Finding{Signature: sig, What: what, Replay: replay})
}

func (m *MonitorResult) sample(v interface{}) {
	if len(m.Samples) < 5 {
		m.Samples = append(m.Samples, v)
	}
}
