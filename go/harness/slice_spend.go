package main

import (
	"bytes"
	"crypto/sha256"
	"encoding/hex"
	"fmt"
	"strings"

	"github.com/btcsuite/btcd/btcec/v2"
	btecdsa "github.com/btcsuite/btcd/btcec/v2/ecdsa"
	"github.com/btcsuite/btcd/btcutil"
	"github.com/btcsuite/btcd/chaincfg"
	"github.com/btcsuite/btcd/txscript"
	"github.com/btcsuite/btcd/wire"
	"github.com/elementsproject/peerswap/onchain"
	"github.com/elementsproject/peerswap/swap"
	"github.com/vulpemventures/go-elements/address"
	"github.com/vulpemventures/go-elements/confidential"
	"github.com/vulpemventures/go-elements/elementsutil"
	"github.com/vulpemventures/go-elements/network"
	"github.com/vulpemventures/go-elements/transaction"
)

// C03 / C08: the REAL wallet adapters (lnd.Client over fake gRPC, LiquidOnChain over a fake wallet) build opening
// and spending transactions; the results are checked by btcd's script engine (Bitcoin) and by Elements sighash +
// ECDSA verification + unblinding (Liquid), and compared with the model's prediction on the same output list.

type spendEnv struct {
	*openEnv
	taker, maker *btcec.PrivateKey
	preimage     []byte
	redeem       []byte
}

func newSpendEnv(salt string, csv uint32, amount uint64) *spendEnv {
	e := &spendEnv{openEnv: newOpenEnv(salt, csv, amount), taker: detKey("ot" + salt), maker: detKey("om" + salt)}
	p := sha256.Sum256([]byte("opre" + salt))
	e.preimage = p[:]
	r, err := onchain.ParamsToTxScript(&e.params, csv)
	if err != nil {
		panic(err)
	}
	e.redeem = r
	return e
}

// witness shape as the model names it: which signature / data sits where (script excluded)
func (e *spendEnv) shape(wit [][]byte, sigOK func(sig []byte, key *btcec.PublicKey) bool) string {
	if len(wit) == 0 {
		return "nowitness"
	}
	if !bytes.Equal(wit[len(wit)-1], e.redeem) {
		return "wrongscript"
	}
	var parts []string
	for _, it := range wit[:len(wit)-1] {
		switch {
		case len(it) == 0:
			parts = append(parts, "E")
		case bytes.Equal(it, e.preimage):
			parts = append(parts, "P")
		case sigOK(it, e.taker.PubKey()):
			parts = append(parts, "T")
		case sigOK(it, e.maker.PubKey()):
			parts = append(parts, "M")
		default:
			parts = append(parts, "X")
		}
	}
	return strings.Join(parts, "")
}

// btcCheck runs btcd's engine on input 0 of tx spending `prev` (the opening transaction's output)
func btcEngineOK(tx *wire.MsgTx, prev *wire.TxOut) bool {
	fetcher := txscript.NewCannedPrevOutputFetcher(prev.PkScript, prev.Value)
	sh := txscript.NewTxSigHashes(tx, fetcher)
	flags := txscript.StandardVerifyFlags
	vm, err := txscript.NewEngine(prev.PkScript, tx, 0, flags, nil, sh, prev.Value, fetcher)
	if err != nil {
		return false
	}
	return vm.Execute() == nil
}

type btcSpendResult struct {
	err      bool
	prevIdx  uint32
	prevTxOK bool
	seq      uint32
	version  int32
	nOut     int
	outValue int64
	toWallet bool
	shape    string
	engine   bool
	addrOK   bool
}

// inspectBtcSpend: what a published Bitcoin spending transaction does, judged against the opening transaction
func (e *spendEnv) inspectBtcSpend(raw []byte, opening *wire.MsgTx, walletAddrs []string, retAddr string) btcSpendResult {
	var r btcSpendResult
	tx := wire.NewMsgTx(2)
	if tx.Deserialize(bytes.NewReader(raw)) != nil || len(tx.TxIn) != 1 {
		r.err = true
		return r
	}
	in := tx.TxIn[0]
	r.prevIdx, r.seq, r.version, r.nOut = in.PreviousOutPoint.Index, in.Sequence, tx.Version, len(tx.TxOut)
	r.prevTxOK = in.PreviousOutPoint.Hash == opening.TxHash()
	if r.nOut > 0 {
		r.outValue = tx.TxOut[0].Value
		for _, a := range walletAddrs {
			ad, err := btcutil.DecodeAddress(a, &chaincfg.RegressionNetParams)
			if err != nil {
				continue
			}
			s, _ := txscript.PayToAddrScript(ad)
			if bytes.Equal(s, tx.TxOut[0].PkScript) {
				r.toWallet = true
				r.addrOK = a == retAddr
			}
		}
	}
	if int(r.prevIdx) < len(opening.TxOut) {
		prev := opening.TxOut[r.prevIdx]
		r.engine = btcEngineOK(tx, prev)
		fetcher := txscript.NewCannedPrevOutputFetcher(prev.PkScript, prev.Value)
		sh := txscript.NewTxSigHashes(tx, fetcher)
		h, err := txscript.CalcWitnessSigHash(e.redeem, sh, txscript.SigHashAll, tx, 0, prev.Value)
		r.shape = e.shape(in.Witness, func(sig []byte, key *btcec.PublicKey) bool {
			if err != nil || len(sig) < 2 || sig[len(sig)-1] != byte(txscript.SigHashAll) {
				return false
			}
			s, perr := btecdsa.ParseDERSignature(sig[:len(sig)-1])
			return perr == nil && s.Verify(h, key)
		})
	}
	return r
}

func (r btcSpendResult) line() string {
	if r.err {
		return "err"
	}
	return fmt.Sprintf("%d %d %d %s engine=%s | prevtx=%s version=%d outs=%d wallet=%s addr=%s", r.prevIdx, r.seq, r.outValue, r.shape, b01(r.engine), b01(r.prevTxOK), r.version, r.nOut, b01(r.toWallet), b01(r.addrOK))
}

// the part of the line the model predicts; the rest is judged by the slice itself
func modelPart(line string) string {
	if i := strings.Index(line, " |"); i >= 0 {
		return line[:i]
	}
	return line
}

type lqSpendResult struct {
	err      bool
	prevIdx  uint32
	prevTxOK bool
	seq      uint32
	nOut     int
	outValue uint64
	outAsset bool
	toWallet bool
	feeValue uint64
	feeOK    bool
	shape    string
}

func (e *spendEnv) inspectLqSpend(rawHex string, opening *transaction.Transaction, w *fakeLiquidWallet) lqSpendResult {
	var r lqSpendResult
	tx, err := transaction.NewTxFromHex(rawHex)
	if err != nil || len(tx.Inputs) != 1 {
		r.err = true
		return r
	}
	in := tx.Inputs[0]
	oh := opening.TxHash()
	r.prevIdx, r.seq, r.nOut = in.Index, in.Sequence, len(tx.Outputs)
	r.prevTxOK = bytes.Equal(in.Hash, oh[:])
	if r.nOut >= 1 {
		for i, a := range w.addrs {
			s, err := address.ToOutputScript(a)
			if err != nil || !bytes.Equal(s, tx.Outputs[0].Script) {
				continue
			}
			ub, err := confidential.UnblindOutputWithKey(tx.Outputs[0], w.blindKeys[i].Serialize())
			if err != nil {
				continue
			}
			r.toWallet = true
			r.outValue = ub.Value
			r.outAsset = bytes.Equal(ub.Asset, lqPolicy()) && tx.Outputs[0].IsConfidential()
			if ac, err := confidential.AssetCommitment(ub.Asset, ub.AssetBlindingFactor); err != nil || !bytes.Equal(ac, tx.Outputs[0].Asset) {
				r.outAsset = false
			}
		}
	}
	if r.nOut >= 2 {
		f := tx.Outputs[1]
		if v, err := elementsutil.ValueFromBytes(f.Value); err == nil && len(f.Script) == 0 && !f.IsConfidential() {
			r.feeValue = v
			r.feeOK = bytes.Equal(f.Asset, append([]byte{0x01}, lqPolicy()...))
		}
	}
	if int(r.prevIdx) < len(opening.Outputs) {
		prev := opening.Outputs[r.prevIdx]
		h := tx.HashForWitnessV0(0, e.redeem, prev.Value, txscript.SigHashAll)
		r.shape = e.shape(in.Witness, func(sig []byte, key *btcec.PublicKey) bool {
			if len(sig) < 2 || sig[len(sig)-1] != byte(txscript.SigHashAll) {
				return false
			}
			s, perr := btecdsa.ParseDERSignature(sig[:len(sig)-1])
			return perr == nil && s.Verify(h[:], key)
		})
	}
	return r
}

func (r lqSpendResult) line() string {
	if r.err {
		return "err"
	}
	return fmt.Sprintf("%d %d %d %d %s | prevtx=%s outs=%d wallet=%s asset=%s feeout=%s", r.prevIdx, r.seq, r.outValue, r.feeValue, r.shape, b01(r.prevTxOK), r.nOut, b01(r.toWallet), b01(r.outAsset), b01(r.feeOK))
}

func genBtcOuts(r *rng, e *openEnv, amount uint64, hist map[string]int) ([][2]int64, []string) {
	k := 1 + r.intn(4)
	var outs [][2]int64
	var line []string
	for j := 0; j < k; j++ {
		v := int64(amount)
		switch r.intn(8) {
		case 0:
			v = int64(amount) - 1
		case 1:
			v = int64(amount) + 1
		case 2:
			v = r.pickI64([]int64{546, 7777, 123456})
		}
		s := 0
		if r.intn(3) == 0 {
			s = 1 + r.intn(len(e.scripts)-1)
		}
		outs = append(outs, [2]int64{v, int64(s)})
		line = append(line, fmt.Sprintf("%d/%d", v, s))
	}
	first, swapAt := -1, -1
	for j, o := range outs {
		if o[0] == int64(amount) && first < 0 {
			first = j
		}
		if o[0] == int64(amount) && o[1] == 0 && swapAt < 0 {
			swapAt = j
		}
	}
	switch {
	case swapAt < 0:
		hist["opening without the swap output"]++
	case first < swapAt:
		hist["an output of the same value before the swap output"]++
	case swapAt == 0:
		hist["swap output first"]++
	default:
		hist["swap output at a later index"]++
	}
	return outs, line
}

func kindOf(i int) string { return []string{"preimage", "csv", "coop"}[i] }

func init() {
	slices["spend"] = func(r *rng, n int, emit func(op, res string)) {
		hist := map[string]int{}
		for i := 0; i < n; i++ {
			kind := kindOf(r.intn(3))
			if r.intn(3) > 0 {
				// ---- Bitcoin through the LND adapter
				amount := r.pickU64([]uint64{100000, 100000, 1000000, 5000000, 21000000, 1000, 300})
				rate := rateEstimator{v: btcutil.Amount(r.pickU64([]uint64{253, 1000, 1000, 5000, 25000, 0, 100})), err: r.intn(10) == 0}
				rig := newLndWalletRig(rate)
				e := newSpendEnv(fmt.Sprint("s", r.intn(3)), onchain.BitcoinCsv, amount)
				outs, line := genBtcOuts(r, e.openEnv, amount, hist)
				openingHex := e.btcTx(outs)
				opening := wire.NewMsgTx(2)
				raw, _ := hex.DecodeString(openingHex)
				opening.Deserialize(bytes.NewReader(raw))
				cp := &swap.ClaimParams{OpeningTxHex: openingHex, Preimage: hex.EncodeToString(e.preimage)}
				var txid, txHex, addr string
				var err error
				size := int64(82 + 74)
				switch kind {
				case "preimage":
					cp.Signer = &keySigner{e.taker}
					txid, txHex, addr, err = rig.client.CreatePreimageSpendingTransaction(&e.params, cp)
				case "csv":
					cp.Signer = &keySigner{e.maker}
					txid, txHex, addr, err = rig.client.CreateCsvSpendingTransaction(&e.params, cp)
				case "coop":
					cp.Signer = &keySigner{e.maker}
					txid, txHex, addr, err = rig.client.CreateCoopSpendingTransaction(&e.params, cp, &keySigner{e.taker})
					size = 250
				}
				fee, _ := rig.chain.GetFee(size) // the adapters' fee: GetFee(stripped size + 74) resp. GetRefundFee() = GetFee(250)
				op := fmt.Sprintf("spend.btc %s %d %d %d - %s", kind, amount, onchain.BitcoinCsv, fee, strings.Join(line, " "))
				if err != nil {
					hist["btc "+kind+" err"]++
					emit(op, "err")
					continue
				}
				res := e.inspectBtcSpend(h2b32(txHex), opening, rig.ln.addrs, addr)
				l := res.line()
				// what the model does not predict is judged here
				pub := len(rig.wk.published) == 1 && bytes.Equal(rig.wk.published[0], h2b32(txHex))
				tx := wire.NewMsgTx(2)
				tx.Deserialize(bytes.NewReader(h2b32(txHex)))
				if !(res.prevTxOK && res.version == 2 && res.nOut == 1 && res.toWallet && res.addrOK && pub && tx.TxHash().String() == txid) {
					l = "BAD " + l + fmt.Sprintf(" published=%s", b01(pub))
				}
				// a transaction whose only output is not positive (fee + 200 sat eat the whole swap output) is invalid;
				// the adapter must refuse to build it
				if len(tx.TxOut) == 1 && tx.TxOut[0].Value <= 0 {
					l = "BAD non-positive-output " + l
				}
				hist["btc "+kind+" built"]++
				emit(op, modelPart(l))
				continue
			}
			// ---- Liquid through LiquidOnChain
			amount := r.pickU64([]uint64{100000, 100000, 1000000, 5000000})
			csv := uint32(r.pickU64([]uint64{60, 1008}))
			e := newSpendEnv(fmt.Sprint("q", r.intn(3)), csv, amount)
			w := &fakeLiquidWallet{fee: r.pickU64([]uint64{500, 37, 1000, 0, 99999, 100000, 100001}), feeErr: r.intn(8) == 0}
			lq := onchain.NewLiquidOnChain(w, &network.Regtest)
			k := 1 + r.intn(3)
			var specs []lqOutSpec
			var line []string
			for j := 0; j < k; j++ {
				s := lqOutSpec{script: 0, kind: r.pickStr([]string{"E", "C", "C", "C", "W", "L"}), policy: r.intn(5) > 0, value: amount}
				if r.intn(3) == 0 {
					s.script = 1 + r.intn(len(e.scripts)-1)
				}
				if r.intn(8) == 0 {
					s.value = amount - 1
				}
				specs = append(specs, s)
				line = append(line, s.view())
			}
			openingHex := e.lqTx(specs)
			opening, _ := transaction.NewTxFromHex(openingHex)
			cp := &swap.ClaimParams{OpeningTxHex: openingHex, Preimage: hex.EncodeToString(e.preimage)}
			var txid, txHex string
			var err error
			switch kind {
			case "preimage":
				cp.Signer = &keySigner{e.taker}
				txid, txHex, _, err = lq.CreatePreimageSpendingTransaction(&e.params, cp)
			case "csv":
				cp.Signer = &keySigner{e.maker}
				txid, txHex, _, err = lq.CreateCsvSpendingTransaction(&e.params, cp)
			case "coop":
				cp.Signer = &keySigner{e.maker}
				txid, txHex, _, err = lq.CreateCoopSpendingTransaction(&e.params, cp, &keySigner{e.taker})
			}
			fee := w.fee
			if w.feeErr {
				fee = 500 // feeAmountPlaceholder
			}
			op := fmt.Sprintf("spend.lq %s %d %d %d %s", kind, amount, csv, fee, strings.Join(line, " "))
			if fee == amount {
				// a zero-value output: whether the blinding library can prove it depends on how the spent output
				// was blinded; outside the model's domain (the theorems need fee < amount)
				hist["skipped: fee equals the amount"]++
				continue
			}
			if err != nil {
				hist["lq "+kind+" err"]++
				emit(op, "err")
				continue
			}
			res := e.inspectLqSpend(txHex, opening, w)
			l := res.line()
			pub := len(w.sent) == 1 && w.sent[0] == txHex
			stx, _ := transaction.NewTxFromHex(txHex)
			if !(res.prevTxOK && res.nOut == 2 && res.toWallet && res.outAsset && res.feeOK && pub && stx != nil && stx.TxHash().String() == txid) {
				l = "BAD " + l + fmt.Sprintf(" published=%s", b01(pub))
			}
			hist["lq "+kind+" built"]++
			emit(op, modelPart(l))
		}
		sliceStats["spend"] = hist
	}

	slices["openmsg"] = func(r *rng, n int, emit func(op, res string)) {
		hist := map[string]int{}
		for i := 0; i < n; i++ {
			amount := r.pickU64([]uint64{100000, 100000, 1000000, 5000000, 21000000})
			genPlan := func() []planOut {
				var p []planOut
				for k := r.intn(3); k > 0; k-- {
					o := planOut{value: r.pickI64([]int64{546, 7777, 123456, int64(amount) - 1, int64(amount) + 1})}
					switch r.intn(6) {
					case 0:
						o.sameValue = true // change that happens to equal the swap amount
					case 1:
						o.sameScript = true // another payment to the same address, other value
					}
					p = append(p, o)
				}
				return p
			}
			if r.intn(2) == 0 {
				// ---- Bitcoin: lnd.Client.CreateOpeningTransaction over FundPsbt / FinalizePsbt / PublishTransaction
				rig := newLndWalletRig(rateEstimator{v: 1000})
				rig.wk.plan = fundPlan{nIn: 1 + r.intn(3), before: genPlan(), after: genPlan(), nested: r.intn(3) == 0}
				if rig.wk.plan.nested {
					hist["btc: funded from nested-segwit coins"]++
				}
				e := newSpendEnv(fmt.Sprint("o", r.intn(3)), onchain.BitcoinCsv, amount)
				rawTxHex, _, txid, fee, vout, err := rig.client.CreateOpeningTransaction(&e.params)
				// the output list as the wallet funded it
				var line []string
				want, _ := rig.chain.GetOutputScript(&e.params)
				firstSame := -1
				if rig.wk.funded != nil {
					for j, o := range rig.wk.funded.TxOut {
						s := 1
						if bytes.Equal(o.PkScript, want) {
							s = 0
						}
						if o.Value == int64(amount) && firstSame < 0 {
							firstSame = j
						}
						line = append(line, fmt.Sprintf("%d/%d", o.Value, s))
					}
				}
				if firstSame >= 0 && firstSame < rig.wk.swapIndex {
					hist["btc: an output of the same value before the swap output"]++
				} else {
					hist[fmt.Sprintf("btc: swap output at index %d", rig.wk.swapIndex)]++
				}
				op := fmt.Sprintf("openmsg.btc %d - %s", amount, strings.Join(line, " "))
				if err != nil {
					emit(op, "err")
					continue
				}
				tx := wire.NewMsgTx(2)
				tx.Deserialize(bytes.NewReader(h2b32(rawTxHex)))
				pub := len(rig.wk.published) == 1 && bytes.Equal(rig.wk.published[0], h2b32(rawTxHex))
				l := fmt.Sprint(vout)
				if !(pub && tx.TxHash().String() == txid && int64(fee) == rig.wk.fundedFee) {
					l = fmt.Sprintf("BAD %d published=%s txid=%s fee=%d", vout, b01(pub), b01(tx.TxHash().String() == txid), fee)
				}
				emit(op, l)
				continue
			}
			// ---- Liquid: LiquidOnChain.CreateOpeningTransaction over the wallet's CreateAndBroadcastTransaction
			w := &fakeLiquidWallet{}
			var plan []lqOutSpec
			mk := func(ps []planOut) {
				for _, o := range ps {
					s := lqOutSpec{script: 1 + r.intn(3), kind: r.pickStr([]string{"C", "C", "E"}), policy: true, value: uint64(o.value)}
					if o.sameValue {
						s.value = amount
					}
					if o.sameScript {
						s.script = 0
						s.kind = "C"
					}
					plan = append(plan, s)
				}
			}
			mk(genPlan())
			plan = append(plan, lqOutSpec{script: -1})
			mk(genPlan())
			w.plan = plan
			csv := uint32(r.pickU64([]uint64{60, 1008}))
			e := newSpendEnv(fmt.Sprint("p", r.intn(3)), csv, amount)
			lq := onchain.NewLiquidOnChain(w, &network.Regtest)
			txHex, _, txid, _, vout, err := lq.CreateOpeningTransaction(&e.params)
			var line []string
			for _, s := range plan {
				if s.script == -1 {
					s = lqOutSpec{script: 0, kind: "C", policy: true, value: amount}
				}
				line = append(line, s.view())
			}
			hist[fmt.Sprintf("lq: swap output at index %d", w.swapIndex)]++
			op := fmt.Sprintf("openmsg.lq %d %s", amount, strings.Join(line, " "))
			if err != nil {
				emit(op, "err")
				continue
			}
			tx, _ := transaction.NewTxFromHex(txHex)
			l := fmt.Sprint(vout)
			if !(tx != nil && tx.TxHash().String() == txid && txHex == w.opened) {
				l = "BAD " + l
			}
			emit(op, l)
		}
		sliceStats["openmsg"] = hist
	}
}
