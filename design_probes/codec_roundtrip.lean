/-!
  FEASIBILITY PROBE referenced by DESIGN.md (C14/C21/C28) -- written while designing, NOT part of the
  verification framework and not used by any check.  It shows that the schema-generic struct <-> JSON-tree
  round-trip theorem planned there is provable by mutual structural recursion over the nested
  inductive `Ty` in core Lean 4.33 (no Mathlib): `lake env lean` checks it in ~1.4 s and
  `#print axioms rt` reports [propext, Quot.sound].  The real `Model/Codec` will add byte slices, maps of
  Go kinds to JSON kinds, the custom SwapId codec, case-insensitive key matching and `json:"-"`.
-/
inductive J where
  | null | bool (b : Bool) | num (i : Int) | str (s : String)
  | obj (kvs : List (String × J))
  deriving Repr, Inhabited

/-- field types (scalar or nested record or pointer-to-record) -/
inductive Ty where
  | str | num | bool
  | struct (fields : List (String × Bool × Ty))      -- key, omitempty, type   (struct by value)
  | ptr (fields : List (String × Bool × Ty))      -- *struct, nil ↔ null
  deriving Repr, Inhabited

inductive Val where
  | str (s : String) | num (i : Int) | bool (b : Bool)
  | struct (fs : List Val)
  | nil
  deriving Repr, Inhabited, BEq

def lookup (k : String) : List (String × J) → Option J
  | [] => none
  | (k', v) :: r => if k' = k then some v else lookup k r

mutual
  def zero : Ty → Val
    | .str => .str ""
    | .num => .num 0
    | .bool => .bool false
    | .struct fs => .struct (zeros fs)
    | .ptr _ => .nil
  def zeros : List (String × Bool × Ty) → List Val
    | [] => []
    | (_, _, t) :: r => zero t :: zeros r
end

/-- Go's omitempty notion of empty (structs are never empty; nil pointers are) -/
def isEmpty : Val → Bool
  | .str s => s == ""
  | .num i => i == 0
  | .bool b => !b
  | .nil => true
  | .struct _ => false

mutual
  def enc : Ty → Val → J
    | .str, .str s => .str s
    | .num, .num i => .num i
    | .bool, .bool b => .bool b
    | .struct fs, .struct vs => .obj (encF fs vs)
    | .ptr _, .nil => .null
    | .ptr fs, .struct vs => .obj (encF fs vs)
    | _, _ => .null
  def encF : List (String × Bool × Ty) → List Val → List (String × J)
    | (k, om, t) :: fs, v :: vs =>
        if om && isEmpty v then encF fs vs else (k, enc t v) :: encF fs vs
    | _, _ => []
end

mutual
  def dec : Ty → J → Option Val
    | .str, .str s => some (.str s)
    | .num, .num i => some (.num i)
    | .bool, .bool b => some (.bool b)
    | .struct fs, .obj kvs => (decF fs kvs).map .struct
    | .ptr _, .null => some .nil
    | .ptr fs, .obj kvs => (decF fs kvs).map .struct
    | .str, .null => some (.str "")      -- Go: null leaves the zero value
    | .num, .null => some (.num 0)
    | .bool, .null => some (.bool false)
    | _, _ => none
  def decF : List (String × Bool × Ty) → List (String × J) → Option (List Val)
    | [], _ => some []
    | (k, _, t) :: fs, kvs =>
      match lookup k kvs with
      | none => (decF fs kvs).map (zero t :: ·)
      | some j => match dec t j, decF fs kvs with
        | some v, some vs => some (v :: vs)
        | _, _ => none
end

#eval dec (.struct [("a", false, .num), ("b", true, .str), ("c", false, .ptr [("x", false, .bool)])])
        (enc (.struct [("a", false, .num), ("b", true, .str), ("c", false, .ptr [("x", false, .bool)])])
             (.struct [.num 5, .str "", .struct [.bool true]]))

mutual
  def WT : Ty → Val → Prop
    | .str, .str _ => True
    | .num, .num _ => True
    | .bool, .bool _ => True
    | .struct fs, .struct vs => WTF fs vs
    | .ptr _, .nil => True
    | .ptr fs, .struct vs => WTF fs vs
    | _, _ => False
  def WTF : List (String × Bool × Ty) → List Val → Prop
    | [], [] => True
    | (_, _, t) :: fs, v :: vs => WT t v ∧ WTF fs vs
    | _, _ => False
end

def keys (fs : List (String × Bool × Ty)) : List String := fs.map (·.1)

mutual
  def WFTy : Ty → Prop
    | .struct fs => (keys fs).Nodup ∧ WFF fs
    | .ptr fs => (keys fs).Nodup ∧ WFF fs
    | _ => True
  /-- omitempty is only allowed where "absent" decodes to the same value, i.e. where empty = zero -/
  def WFF : List (String × Bool × Ty) → Prop
    | [] => True
    | (_, om, t) :: fs => WFTy t ∧ (om = true → ∀ fs', t ≠ .struct fs') ∧ WFF fs
end

theorem lookup_encF_not_mem (k : String) : ∀ (fs : List (String × Bool × Ty)) (vs : List Val),
    k ∉ keys fs → lookup k (encF fs vs) = none
  | [], vs, _ => by cases vs <;> simp [encF, lookup]
  | (k', om, t) :: fs, [], _ => by simp [encF, lookup]
  | (k', om, t) :: fs, v :: vs, h => by
    have h1 : k' ≠ k := by intro e; apply h; simp [keys, e]
    have h2 : k ∉ keys fs := by intro e; apply h; simp [keys] at e ⊢; exact Or.inr e
    unfold encF
    split
    · exact lookup_encF_not_mem k fs vs h2
    · simp [lookup, h1, lookup_encF_not_mem k fs vs h2]

theorem isEmpty_zero (t : Ty) (v : Val) (hw : WT t v) (he : isEmpty v = true)
    (hns : ∀ fs', t ≠ .struct fs') : v = zero t := by
  cases t <;> cases v <;> simp_all [WT, isEmpty, zero]

theorem lookup_append_none (k : String) (a b : List (String × J)) (h : lookup k a = none) :
    lookup k (a ++ b) = lookup k b := by
  induction a with
  | nil => rfl
  | cons p r ih =>
    obtain ⟨k', v⟩ := p
    simp only [lookup, List.cons_append] at h ⊢
    split at h
    · simp at h
    · rename_i hne; simp [hne, ih h]

theorem lookup_snoc (k : String) (a : List (String × J)) (j : J) (h : lookup k a = none) :
    lookup k (a ++ [(k, j)]) = some j := by
  rw [lookup_append_none k a _ h]; simp [lookup]

theorem lookup_snoc_ne (k k' : String) (a : List (String × J)) (j : J) (h : lookup k a = none) (hne : k' ≠ k) :
    lookup k (a ++ [(k', j)]) = none := by
  rw [lookup_append_none k a _ h]; simp [lookup, hne]

mutual
  theorem rt : ∀ (t : Ty) (v : Val), WFTy t → WT t v → dec t (enc t v) = some v
    | .str, .str s, _, _ => by simp [enc, dec]
    | .num, .num s, _, _ => by simp [enc, dec]
    | .bool, .bool s, _, _ => by simp [enc, dec]
    | .struct fs, .struct vs, hwf, hwt => by
      simp only [enc, dec]
      have := rtF fs vs [] hwf.1 hwf.2 (by simpa [WT] using hwt) (by intro k _; rfl)
      simp at this; simp [this]
    | .ptr fs, .nil, _, _ => by simp [enc, dec]
    | .ptr fs, .struct vs, hwf, hwt => by
      simp only [enc, dec]
      have := rtF fs vs [] hwf.1 hwf.2 (by simpa [WT] using hwt) (by intro k _; rfl)
      simp at this; simp [this]
    | .str, .num _, _, h | .str, .bool _, _, h | .str, .struct _, _, h | .str, .nil, _, h
    | .num, .str _, _, h | .num, .bool _, _, h | .num, .struct _, _, h | .num, .nil, _, h
    | .bool, .str _, _, h | .bool, .num _, _, h | .bool, .struct _, _, h | .bool, .nil, _, h
    | .struct _, .str _, _, h | .struct _, .num _, _, h | .struct _, .bool _, _, h | .struct _, .nil, _, h
    | .ptr _, .str _, _, h | .ptr _, .num _, _, h | .ptr _, .bool _, _, h => by simp [WT] at h
  theorem rtF : ∀ (fs : List (String × Bool × Ty)) (vs : List Val) (pre : List (String × J)),
      (keys fs).Nodup → WFF fs → WTF fs vs → (∀ k ∈ keys fs, lookup k pre = none) →
      decF fs (pre ++ encF fs vs) = some vs
    | [], [], pre, _, _, _, _ => by simp [decF]
    | [], _ :: _, _, _, _, h, _ => by simp [WTF] at h
    | _ :: _, [], _, _, _, h, _ => by simp [WTF] at h
    | (k, om, t) :: fs, v :: vs, pre, hnd, hwf, hwt, hpre => by
      have hk : k ∉ keys fs := by simpa [keys] using (List.nodup_cons.mp hnd).1
      have hnd' : (keys fs).Nodup := (List.nodup_cons.mp hnd).2
      have hpk : lookup k pre = none := hpre k (by simp [keys])
      obtain ⟨hwt1, hwt2⟩ : WT t v ∧ WTF fs vs := by simpa [WTF] using hwt
      obtain ⟨hwf1, hwf2, hwf3⟩ : WFTy t ∧ (om = true → ∀ fs', t ≠ .struct fs') ∧ WFF fs := by simpa [WFF] using hwf
      unfold encF
      by_cases hom : (om && isEmpty v) = true
      · -- omitted: key absent everywhere, decoded as zero = v
        simp only [hom, if_true]
        have hpre' : ∀ k' ∈ keys fs, lookup k' pre = none := fun k' hk' => hpre k' (by simp [keys] at hk' ⊢; exact Or.inr hk')
        have ih := rtF fs vs pre hnd' hwf3 hwt2 hpre'
        have hlk : lookup k (pre ++ encF fs vs) = none := by
          rw [lookup_append_none k pre _ hpk]; exact lookup_encF_not_mem k fs vs hk
        have hv : v = zero t := by
          simp at hom
          exact isEmpty_zero t v hwt1 hom.2 (hwf2 hom.1)
        simp [decF, hlk, ih, hv]
      · simp only [hom]
        have hpre' : ∀ k' ∈ keys fs, lookup k' (pre ++ [(k, enc t v)]) = none := by
          intro k' hk'
          have : k ≠ k' := by intro e; subst e; exact hk hk'
          exact lookup_snoc_ne k' k pre _ (hpre k' (by simp [keys] at hk' ⊢; exact Or.inr hk')) this
        have ih := rtF fs vs (pre ++ [(k, enc t v)]) hnd' hwf3 hwt2 hpre'
        have hlk : lookup k (pre ++ (k, enc t v) :: encF fs vs) = some (enc t v) := by
          rw [lookup_append_none k pre _ hpk]; simp [lookup]
        have e1 := rt t v hwf1 hwt1
        simp only [List.append_assoc, List.singleton_append] at ih
        simp [decF, hlk, e1, ih]
end
#print axioms rt
