/-!
  FEASIBILITY PROBE referenced by DESIGN.md (C06, appendix A.4) -- written while designing, NOT part of
  the verification framework and not used by any check.  Hand transcription of the swap-out sender table
  of this tree plus per-action outcome summaries; `closed` decides whether the candidate invariant I-C06 is
  inductive under every external event at a rest state and under recovery from every persisted state.
  Results (2 s):  current tree: false;  OnTimeout edge out of ClaimSwap removed: still false (recovery
  re-executes the pay action with the preimage already persisted and an LND-like back-end refuses);
  edge removed + persisted preimage honoured + back-end errors are definitive: TRUE, and
  `theorem closed_fixed … := by decide` is accepted with axioms [propext];  back-end may error while the
  HTLC is pending: false.  `bad` lists the offending (state, input, successor) triples and is the seed of
  the planned `search` command.
-/
inductive S | default | createSwap | sendRequest | awaitAgreement | payFee | awaitTxMsg | sendCancel
  | awaitConf | validatePay | claimSwap | sendPrivkey | sendCoopClose | canceled | claimedPreimage | claimedCoop
  deriving DecidableEq, Repr
inductive E | started | cancelRecv | timeout | feeInvoice | invalid | txOpened | txConfirmed
  | succeeded | failed | retry | noop | done
  deriving DecidableEq, Repr

def S.all : List S := [.default,.createSwap,.sendRequest,.awaitAgreement,.payFee,.awaitTxMsg,.sendCancel,.awaitConf,.validatePay,.claimSwap,.sendPrivkey,.sendCoopClose,.canceled,.claimedPreimage,.claimedCoop]
def E.ext : List E := [.started,.cancelRecv,.timeout,.feeInvoice,.invalid,.txOpened,.txConfirmed,.failed]

/-- transcription of getSwapOutSenderStates (this tree) -/
def table (withTimeoutEdge : Bool) : List (S × E × S) :=
  [(.default,.started,.createSwap),
   (.createSwap,.succeeded,.sendRequest),(.createSwap,.failed,.canceled),
   (.sendRequest,.failed,.canceled),(.sendRequest,.succeeded,.awaitAgreement),
   (.awaitAgreement,.cancelRecv,.canceled),(.awaitAgreement,.timeout,.sendCancel),(.awaitAgreement,.feeInvoice,.payFee),
   (.awaitAgreement,.invalid,.sendCancel),(.awaitAgreement,.failed,.canceled),
   (.payFee,.failed,.sendCancel),(.payFee,.succeeded,.awaitTxMsg),
   (.awaitTxMsg,.cancelRecv,.canceled),(.awaitTxMsg,.txOpened,.awaitConf),(.awaitTxMsg,.failed,.sendPrivkey),(.awaitTxMsg,.invalid,.sendCancel),
   (.sendCancel,.succeeded,.canceled),(.sendCancel,.failed,.canceled),
   (.awaitConf,.failed,.sendPrivkey),(.awaitConf,.txConfirmed,.validatePay),
   (.validatePay,.failed,.sendPrivkey),(.validatePay,.succeeded,.claimSwap),
   (.claimSwap,.succeeded,.claimedPreimage),(.claimSwap,.retry,.claimSwap)] ++
  (if withTimeoutEdge then [(.claimSwap,.timeout,.sendPrivkey)] else []) ++
  [(.sendPrivkey,.failed,.sendCancel),(.sendPrivkey,.succeeded,.sendCoopClose),
   (.sendCoopClose,.failed,.sendCancel),(.sendCoopClose,.succeeded,.claimedCoop)]

def next (tb : List (S × E × S)) (s : S) (e : E) : Option S :=
  (tb.find? (fun r => r.1 == s && r.2.1 == e)).map (·.2.2)

structure A where
  s : S
  paid : Bool
  pending : Bool
  revealed : Bool
  deriving DecidableEq, Repr

/-- environment flavour: can a pay attempt fail while the HTLC stays pending? -/
structure Envk where
  errorWhilePending : Bool
  honourPreimage : Bool := false

/-- possible outcomes (result event, new flags) of the action of state `s` -/
def outcomes (k : Envk) (a : A) : List (E × A) :=
  match a.s with
  | .createSwap | .sendRequest | .payFee | .sendCancel | .sendPrivkey => [(.succeeded, a), (.failed, a)]
  | .sendCoopClose => [(.succeeded, { a with revealed := true }), (.failed, a)]
  | .awaitAgreement => [(.noop, a)]
  | .awaitTxMsg => [(.noop, a), (.failed, a)]
  | .awaitConf => [(.noop, a), (.failed, a)]
  | .validatePay =>
      (if a.paid && k.honourPreimage then [(.succeeded, a)] else
       [(.succeeded, { a with paid := true, pending := false }), (.failed, a)]) ++
      (if k.errorWhilePending then [(.failed, { a with pending := true })] else [])
  | .claimSwap => [(.succeeded, a), (.retry, a)]
  | .canceled | .claimedPreimage | .claimedCoop => [(.done, a)]
  | .default => []

/-- all abstract states reachable by handling event `e` (SendEvent loop), with fuel -/
def handle (tb : List (S × E × S)) (k : Envk) : Nat → A → E → List A
  | 0, a, _ => [a]
  | n+1, a, e =>
    match next tb a.s e with
    | none => [a]                                   -- rejected
    | some s' =>
      let a' := { a with s := s' }
      (outcomes k a').flatMap fun (r, a'') =>
        if r == .noop || r == .done then [a''] else
        if r == .retry then a'' :: handle tb k n a'' r   -- may stop after 21 tries, or go on
        else handle tb k n a'' r

def failOnRecover : S → Bool
  | .createSwap | .sendRequest | .awaitAgreement | .payFee => true
  | _ => false

def recover (tb : List (S × E × S)) (k : Envk) (a : A) : List A :=
  if failOnRecover a.s then handle tb k 20 a .failed else
  (outcomes k a).flatMap fun (r, a') =>
    if r == .noop then [a'] else handle tb k 20 a' r

def InvA (k : Envk) (a : A) : Bool :=
  (k.errorWhilePending || !a.pending) &&
  -- key revealed, or about to be, only when nothing paid / pending; paid only in claim states
  ((a.s == .sendPrivkey || a.s == .sendCoopClose || a.s == .claimedCoop || a.revealed) → !a.paid && !a.pending) &&
  (a.paid → a.s == .claimSwap || a.s == .claimedPreimage || a.s == .validatePay) &&
  (a.revealed → a.s == .claimedCoop) && !(a.paid && a.pending) &&
  (a.pending → a.s == .validatePay || a.s == .sendPrivkey || a.s == .sendCoopClose || a.s == .claimedCoop || a.s == .sendCancel || a.s == .canceled)

def allA : List A :=
  S.all.flatMap fun s => [true,false].flatMap fun p => [true,false].flatMap fun q => [true,false].map fun r => ⟨s,p,q,r⟩

/-- states in which a live swap can be at rest (SendEvent returned) -/
def rest : S → Bool
  | .default | .awaitAgreement | .awaitTxMsg | .awaitConf | .claimSwap | .canceled | .claimedPreimage | .claimedCoop => true
  | _ => false

def closed (tb : List (S × E × S)) (k : Envk) : Bool :=
  allA.all fun a => !InvA k a ||
    ((!rest a.s || E.ext.all fun e => (handle tb k 20 a e).all (InvA k)) && (recover tb k a).all (InvA k))


#eval closed (table true) ⟨false, false⟩     -- current tree
#eval closed (table false) ⟨false, false⟩    -- edge removed only
#eval closed (table false) ⟨false, true⟩     -- edge removed + persisted preimage honoured, benign back-end
#eval closed (table false) ⟨true, true⟩      -- ... but back-end may error while pending
theorem closed_fixed : closed (table false) ⟨false, true⟩ = true := by decide
#print axioms closed_fixed
def bad (tb : List (S × E × S)) (k : Envk) : List (A × String) :=
  allA.flatMap fun a => if !InvA k a then [] else
    ((if rest a.s then E.ext else []).flatMap fun e => (handle tb k 20 a e).filterMap fun b => if InvA k b then none else some (a, s!"{repr e} -> {repr b}")) ++
    ((recover tb k a).filterMap fun b => if InvA k b then none else some (a, s!"recover -> {repr b}"))
#eval (bad (table false) ⟨false, true⟩).take 6
