#!/bin/bash
# run every registered check (default tier quick) on the current /repo tree; prints one line per property
cd "$(dirname "$0")"
tier=${1:-quick}
rc=0
for p in $(python3 -c "from props import PROPS; print(' '.join(sorted(PROPS)))"); do
  out=$(./check $p --tier $tier 2>&1); r=$?
  echo "$out" | grep -E "^(OK|VIOLATION)" | tail -1
  [ $r -ne 0 ] && { rc=1; echo "$out" | grep -v KNOWN-FINDING | tail -5; }
done
exit $rc
