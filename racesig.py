#!/usr/bin/env python3
"""Parse Go race-detector reports: one finding per pair of peerswap functions whose accesses race."""
import re, sys, json, glob

MOD = "github.com/elementsproject/peerswap/"

def parse(paths):
    out = {}
    for p in paths:
        txt = open(p, errors="replace").read()
        for rep in txt.split("WARNING: DATA RACE")[1:]:
            rep = rep.split("==================")[0]
            # the two access stacks: "Read at"/"Write at"/"Previous read at"/"Previous write at"
            blocks = re.split(r"\n(?=(?:Previous )?(?:[Rr]ead|[Ww]rite) at )", "\n" + rep)
            acc = [b for b in blocks if re.match(r"(?:Previous )?(?:[Rr]ead|[Ww]rite) at ", b)]
            if len(acc) < 2:
                continue
            picks = []
            via_pretty = "PrettyprintFromServiceSwap" in acc[0].split("\nGoroutine ")[0] + acc[1].split("\nGoroutine ")[0]
            for b in acc[:2]:
                kind = "write" if re.match(r"(?:Previous )?[Ww]rite", b) else "read"
                b = b.split("\nGoroutine ")[0]
                frames = re.findall(r"\n  (\S+)\(\)\n\s+(\S+):(\d+)", b)
                pick = None
                for fn, file, line in frames:
                    if fn.startswith("main.") or "/verif/go/harness" in file:
                        break  # the access is the harness's own
                    if MOD in fn or file.startswith("/repo/"):
                        name = fn.replace(MOD, "")
                        name = re.sub(r"\.func\d+(\.\d+)*$", "", name)
                        pick = (kind, name, file.replace("/repo/", "") + ":" + line)
                        break
                picks.append(pick)
            if None in picks:
                continue
            a, b = sorted(picks, key=lambda x: (x[1], x[0]))
            sig = "C19/%s/%s" % (a[1], b[1])
            if via_pretty:
                # one defect, many symptoms: the RPC layer formats the LIVE state machine it got from SwapOut/SwapIn/
                # GetActiveSwap while the swap's events are being handled
                sig = "C19/peerswaprpc.PrettyprintFromServiceSwap/reads-live-swap"
            if sig not in out:
                out[sig] = {"signature": sig, "what": "data race: %s in %s (%s) against %s in %s (%s)" % (a[0], a[1], a[2], b[0], b[1], b[2]),
                            "replay": {"report": ("WARNING: DATA RACE" + rep)[:3000]}, "count": 0}
            out[sig]["count"] += 1
    return sorted(out.values(), key=lambda f: f["signature"])

if __name__ == "__main__":
    fs = parse(sum((glob.glob(a) for a in sys.argv[1:]), []))
    for f in fs:
        print(f["count"], f["signature"], "--", f["what"])
